// puppet13.cc - scriptable TLS 1.3 endpoint on libcrypto primitives (see puppet13.h).  No libssl, no MatrixSSL headers.
#define OPENSSL_SUPPRESS_DEPRECATED 1
#include "puppet13.h"
#include <openssl/bn.h>
#include <openssl/ec.h>
#include <openssl/evp.h>
#include <openssl/hmac.h>
#include <openssl/pem.h>
#include <openssl/rand.h>
#include <openssl/rsa.h>
#include <openssl/x509.h>
#include <cstdio>
#include <cstring>

namespace p13 {

// ------------------------------------------------------------------------------------------------ small helpers
static void put8(Bytes &b, unsigned v) { b.push_back((uint8_t) v); }
static void put16(Bytes &b, unsigned v) { b.push_back((uint8_t) (v >> 8)); b.push_back((uint8_t) v); }
static void put24(Bytes &b, size_t v) { b.push_back((uint8_t) (v >> 16)); b.push_back((uint8_t) (v >> 8)); b.push_back((uint8_t) v); }
static void put32(Bytes &b, uint32_t v) { put16(b, v >> 16); put16(b, v & 0xffff); }
static void putb(Bytes &b, const Bytes &x) { b.insert(b.end(), x.begin(), x.end()); }
static void putv8(Bytes &b, const Bytes &x) { put8(b, (unsigned) x.size()); putb(b, x); }
static void putv16(Bytes &b, const Bytes &x) { put16(b, (unsigned) x.size()); putb(b, x); }
static void putv24(Bytes &b, const Bytes &x) { put24(b, x.size()); putb(b, x); }
static void put_ext(Bytes &b, unsigned type, const Bytes &data) { put16(b, type); putv16(b, data); }
static std::string hexs(const Bytes &b, size_t max = 48) {
    static const char *d = "0123456789abcdef"; std::string s;
    for (size_t i = 0; i < b.size() && i < max; i++) { s += d[b[i] >> 4]; s += d[b[i] & 15]; }
    if (b.size() > max) s += "..";
    return s;
}

// bounds-checked reader
struct Rd {
    const uint8_t *p; size_t n, o; bool ok;
    Rd(const uint8_t *d, size_t len) : p(d), n(len), o(0), ok(true) {}
    explicit Rd(const Bytes &b) : p(b.data()), n(b.size()), o(0), ok(true) {}
    size_t left() const { return ok ? n - o : 0; }
    uint32_t u(int k) { if (!ok || n - o < (size_t) k) { ok = false; return 0; } uint32_t v = 0; for (int i = 0; i < k; i++) v = v << 8 | p[o++]; return v; }
    Bytes take(size_t k) { if (!ok || n - o < k) { ok = false; return Bytes(); } Bytes b(p + o, p + o + k); o += k; return b; }
    Bytes vec(int lenbytes) { size_t k = u(lenbytes); return take(k); }
};

const char *msg_name(int m) {
    static const char *n[] = { "ClientHello", "ServerHello", "HelloRetryRequest", "EncryptedExtensions", "CertificateRequest", "Certificate",
                               "CertificateVerify", "Finished", "NewSessionTicket", "KeyUpdate", "EndOfEarlyData", "HelloRequest",
                               "ServerKeyExchange", "ServerHelloDone", "ClientKeyExchange", "RawHandshake", "CCS", "AppData", "Alert", "RawRecords" };
    return (m >= 0 && m < M_NMSG) ? n[m] : "?";
}
const char *hs_type_name(int t) {
    switch (t) {
    case 0: return "HelloRequest"; case 1: return "ClientHello"; case 2: return "ServerHello"; case 4: return "NewSessionTicket";
    case 5: return "EndOfEarlyData"; case 8: return "EncryptedExtensions"; case 11: return "Certificate"; case 12: return "ServerKeyExchange";
    case 13: return "CertificateRequest"; case 14: return "ServerHelloDone"; case 15: return "CertificateVerify"; case 16: return "ClientKeyExchange";
    case 20: return "Finished"; case 24: return "KeyUpdate"; case 254: return "message_hash";
    }
    return "hs?";
}

// ------------------------------------------------------------------------------------------------ primitives
Bytes sha256(const Bytes &b) {
    Bytes out(32); unsigned int l = 32;
    EVP_Digest(b.data(), b.size(), out.data(), &l, EVP_sha256(), nullptr);
    return out;
}
Bytes hmac_sha256(const Bytes &key, const Bytes &data) {
    Bytes out(32); unsigned int l = 32; static const uint8_t z = 0;
    HMAC(EVP_sha256(), key.empty() ? &z : key.data(), (int) key.size(), data.data(), data.size(), out.data(), &l);
    return out;
}
Bytes hkdf_extract(const Bytes &salt, const Bytes &ikm) { return hmac_sha256(salt.empty() ? Bytes(32, 0) : salt, ikm); }
static Bytes hkdf_expand(const Bytes &prk, const Bytes &info, size_t len) {
    Bytes out, t;
    for (uint8_t i = 1; out.size() < len; i++) { Bytes in = t; putb(in, info); in.push_back(i); t = hmac_sha256(prk, in); putb(out, t); }
    out.resize(len);
    return out;
}
Bytes hkdf_expand_label(const Bytes &secret, const std::string &label, const Bytes &context, size_t len) {
    Bytes info; put16(info, (unsigned) len);
    std::string l = "tls13 " + label; put8(info, (unsigned) l.size()); info.insert(info.end(), l.begin(), l.end());
    putv8(info, context);
    return hkdf_expand(secret, info, len);
}
static Bytes derive_secret(const Bytes &secret, const std::string &label, const Bytes &thash) { return hkdf_expand_label(secret, label, thash, 32); }

static bool gcm_seal(const Bytes &key, const Bytes &nonce, const Bytes &aad, const Bytes &pt, Bytes &out) {
    EVP_CIPHER_CTX *c = EVP_CIPHER_CTX_new(); bool ok = false; int l = 0, l2 = 0;
    out.assign(pt.size() + 16, 0);
    if (c && EVP_EncryptInit_ex(c, EVP_aes_128_gcm(), nullptr, nullptr, nullptr) == 1 && EVP_CIPHER_CTX_ctrl(c, EVP_CTRL_GCM_SET_IVLEN, 12, nullptr) == 1 &&
        EVP_EncryptInit_ex(c, nullptr, nullptr, key.data(), nonce.data()) == 1 && EVP_EncryptUpdate(c, nullptr, &l, aad.data(), (int) aad.size()) == 1 &&
        (pt.empty() || EVP_EncryptUpdate(c, out.data(), &l, pt.data(), (int) pt.size()) == 1) && EVP_EncryptFinal_ex(c, out.data() + pt.size(), &l2) == 1 &&
        EVP_CIPHER_CTX_ctrl(c, EVP_CTRL_GCM_GET_TAG, 16, out.data() + pt.size()) == 1) ok = true;
    EVP_CIPHER_CTX_free(c);
    return ok;
}
static bool gcm_open(const Bytes &key, const Bytes &nonce, const Bytes &aad, const uint8_t *ct, size_t n, Bytes &out) {
    if (n < 16) return false;
    EVP_CIPHER_CTX *c = EVP_CIPHER_CTX_new(); bool ok = false; int l = 0, l2 = 0;
    out.assign(n - 16 + 1, 0);
    if (c && EVP_DecryptInit_ex(c, EVP_aes_128_gcm(), nullptr, nullptr, nullptr) == 1 && EVP_CIPHER_CTX_ctrl(c, EVP_CTRL_GCM_SET_IVLEN, 12, nullptr) == 1 &&
        EVP_DecryptInit_ex(c, nullptr, nullptr, key.data(), nonce.data()) == 1 && EVP_DecryptUpdate(c, nullptr, &l, aad.data(), (int) aad.size()) == 1 &&
        (n == 16 || EVP_DecryptUpdate(c, out.data(), &l, ct, (int) (n - 16)) == 1) &&
        EVP_CIPHER_CTX_ctrl(c, EVP_CTRL_GCM_SET_TAG, 16, (void *) (ct + n - 16)) == 1 && EVP_DecryptFinal_ex(c, out.data() + (n - 16), &l2) == 1) ok = true;
    EVP_CIPHER_CTX_free(c);
    out.resize(n - 16);
    return ok;
}

// deterministic byte stream
struct Drbg {
    Bytes key; uint64_t ctr = 0;
    explicit Drbg(uint64_t seed, const char *dom) { Bytes s; for (int i = 0; i < 8; i++) s.push_back((uint8_t) (seed >> (8 * i))); for (const char *p = dom; *p; p++) s.push_back((uint8_t) *p); key = sha256(s); }
    Bytes take(size_t n) { Bytes out; while (out.size() < n) { Bytes in = key; for (int i = 0; i < 8; i++) in.push_back((uint8_t) (ctr >> (8 * i))); ctr++; Bytes b = sha256(in); putb(out, b); } out.resize(n); return out; }
};

// ---- process-wide deterministic RAND for OpenSSL (PSS salts, ECDSA nonces)
static Drbg *g_rand = nullptr;
static int dr_bytes(unsigned char *buf, int num) { if (!g_rand) return 0; Bytes b = g_rand->take((size_t) num); memcpy(buf, b.data(), (size_t) num); return 1; }
static int dr_status(void) { return 1; }
static int dr_seed(const void *, int) { return 1; }
static int dr_add(const void *, int, double) { return 1; }
void deterministic_rand(uint64_t seed) {
    static RAND_METHOD m = { dr_seed, dr_bytes, nullptr, dr_add, dr_bytes, dr_status };
    static bool installed = false;
    delete g_rand; g_rand = new Drbg(seed, "openssl-rand");
    if (!installed) { RAND_set_rand_method(&m); installed = true; }
}

// ---- key exchange
struct KeyPair { uint16_t group = 0; Bytes priv, pub; };
static int ec_nid(uint16_t group) { return group == GROUP_SECP256R1 ? NID_X9_62_prime256v1 : group == GROUP_SECP384R1 ? NID_secp384r1 : group == GROUP_SECP521R1 ? NID_secp521r1 : 0; }
static size_t ec_len(uint16_t group) { return group == GROUP_SECP384R1 ? 48 : group == GROUP_SECP521R1 ? 66 : 32; }
static KeyPair kx_generate(uint16_t group, const Bytes &seed32) {
    KeyPair k; k.group = group;
    if (group == GROUP_X25519) {
        k.priv = seed32;
        EVP_PKEY *p = EVP_PKEY_new_raw_private_key(EVP_PKEY_X25519, nullptr, k.priv.data(), 32);
        k.pub.assign(32, 0); size_t l = 32;
        if (p) { EVP_PKEY_get_raw_public_key(p, k.pub.data(), &l); EVP_PKEY_free(p); }
    } else if (ec_nid(group)) {
        size_t n = ec_len(group);
        k.priv = seed32; while (k.priv.size() < n) { Bytes more = sha256(k.priv); putb(k.priv, more); } k.priv.resize(n);
        k.priv[0] = (uint8_t) (group == GROUP_SECP521R1 ? 0 : k.priv[0] & 0x7f); k.priv[n - 1] |= 1;
        EC_GROUP *g = EC_GROUP_new_by_curve_name(ec_nid(group));
        BIGNUM *d = BN_bin2bn(k.priv.data(), (int) n, nullptr);
        EC_POINT *q = EC_POINT_new(g);
        k.pub.assign(1 + 2 * n, 0);
        if (g && d && q && EC_POINT_mul(g, q, d, nullptr, nullptr, nullptr) == 1) EC_POINT_point2oct(g, q, POINT_CONVERSION_UNCOMPRESSED, k.pub.data(), k.pub.size(), nullptr);
        EC_POINT_free(q); BN_free(d); EC_GROUP_free(g);
    }
    return k;
}
// returns the shared secret, or empty when the peer share is unusable
static Bytes kx_derive(const KeyPair &k, const Bytes &peer) {
    Bytes out;
    if (k.group == GROUP_X25519) {
        if (peer.size() != 32) return out;
        EVP_PKEY *me = EVP_PKEY_new_raw_private_key(EVP_PKEY_X25519, nullptr, k.priv.data(), 32);
        EVP_PKEY *pe = EVP_PKEY_new_raw_public_key(EVP_PKEY_X25519, nullptr, peer.data(), 32);
        EVP_PKEY_CTX *c = me ? EVP_PKEY_CTX_new(me, nullptr) : nullptr; size_t l = 32; out.assign(32, 0);
        if (!(c && pe && EVP_PKEY_derive_init(c) == 1 && EVP_PKEY_derive_set_peer(c, pe) == 1 && EVP_PKEY_derive(c, out.data(), &l) == 1)) out.clear();
        EVP_PKEY_CTX_free(c); EVP_PKEY_free(me); EVP_PKEY_free(pe);
    } else if (ec_nid(k.group)) {
        size_t n = ec_len(k.group);
        if (peer.size() != 1 + 2 * n) return out;
        EC_GROUP *g = EC_GROUP_new_by_curve_name(ec_nid(k.group));
        EC_POINT *q = EC_POINT_new(g), *r = EC_POINT_new(g);
        BIGNUM *d = BN_bin2bn(k.priv.data(), (int) n, nullptr), *x = BN_new();
        if (g && q && r && d && x && EC_POINT_oct2point(g, q, peer.data(), peer.size(), nullptr) == 1 && EC_POINT_is_on_curve(g, q, nullptr) == 1 &&
            EC_POINT_mul(g, r, nullptr, q, d, nullptr) == 1 && EC_POINT_get_affine_coordinates(g, r, x, nullptr, nullptr) == 1) {
            out.assign(n, 0); BN_bn2binpad(x, out.data(), (int) n);
        }
        BN_free(x); BN_free(d); EC_POINT_free(q); EC_POINT_free(r); EC_GROUP_free(g);
    }
    return out;
}

// ---- identities and signatures
struct Identity { std::vector<Bytes> chain; EVP_PKEY *key = nullptr; bool ec = false; ~Identity() { EVP_PKEY_free(key); } };
IdentityPtr load_identity(const std::string &cert, const std::string &key, std::string *err) {
    auto id = std::make_shared<Identity>();
    FILE *f = fopen(cert.c_str(), "r");
    if (!f) { if (err) *err = "cannot open " + cert; return nullptr; }
    while (X509 *x = PEM_read_X509(f, nullptr, nullptr, nullptr)) {
        unsigned char *der = nullptr; int l = i2d_X509(x, &der);
        if (l > 0) { id->chain.emplace_back(der, der + l); OPENSSL_free(der); }
        X509_free(x);
    }
    fclose(f);
    if (id->chain.empty()) { if (err) *err = "no certificate in " + cert; return nullptr; }
    f = fopen(key.c_str(), "r");
    if (!f) { if (err) *err = "cannot open " + key; return nullptr; }
    id->key = PEM_read_PrivateKey(f, nullptr, nullptr, nullptr);
    fclose(f);
    if (!id->key) { if (err) *err = "no private key in " + key; return nullptr; }
    id->ec = EVP_PKEY_base_id(id->key) == EVP_PKEY_EC;
    return id;
}
const std::vector<Bytes> &identity_chain(const Identity &id) { return id.chain; }
bool identity_is_ec(const Identity &id) { return id.ec; }

Bytes certificate_verify_content(bool server_context, const Bytes &thash) {
    Bytes c(64, 0x20);
    std::string s = server_context ? "TLS 1.3, server CertificateVerify" : "TLS 1.3, client CertificateVerify";
    c.insert(c.end(), s.begin(), s.end()); c.push_back(0); putb(c, thash);
    return c;
}
static const EVP_MD *scheme_md(uint16_t scheme) {
    switch (scheme) { case 0x0401: case 0x0403: case 0x0804: case 0x0809: return EVP_sha256(); case 0x0501: case 0x0503: case 0x0805: case 0x080a: return EVP_sha384();
                      case 0x0601: case 0x0603: case 0x0806: case 0x080b: return EVP_sha512(); case 0x0201: case 0x0203: return EVP_sha1(); }
    return nullptr;
}
static bool scheme_is_pss(uint16_t s) { return s >= 0x0804 && s <= 0x080b && s != 0x0807 && s != 0x0808; }
static Bytes sign_content(EVP_PKEY *key, uint16_t scheme, const Bytes &content) {
    Bytes sig; const EVP_MD *md = scheme_md(scheme); if (!md) md = EVP_sha256();
    EVP_MD_CTX *m = EVP_MD_CTX_new(); EVP_PKEY_CTX *pc = nullptr; size_t l = 0;
    if (m && EVP_DigestSignInit(m, &pc, md, nullptr, key) == 1) {
        bool ok = true;
        if (scheme_is_pss(scheme) && EVP_PKEY_base_id(key) == EVP_PKEY_RSA)
            ok = EVP_PKEY_CTX_set_rsa_padding(pc, RSA_PKCS1_PSS_PADDING) == 1 && EVP_PKEY_CTX_set_rsa_pss_saltlen(pc, RSA_PSS_SALTLEN_DIGEST) == 1 && EVP_PKEY_CTX_set_rsa_mgf1_md(pc, md) == 1;
        if (ok && EVP_DigestSign(m, nullptr, &l, content.data(), content.size()) == 1) { sig.assign(l, 0); if (EVP_DigestSign(m, sig.data(), &l, content.data(), content.size()) == 1) sig.resize(l); else sig.clear(); }
    }
    EVP_MD_CTX_free(m);
    return sig;
}
bool verify_signature(const Bytes &leaf_der, uint16_t scheme, const Bytes &content, const Bytes &sig) {
    const unsigned char *p = leaf_der.data(); X509 *x = d2i_X509(nullptr, &p, (long) leaf_der.size());
    if (!x) return false;
    EVP_PKEY *key = X509_get0_pubkey(x); const EVP_MD *md = scheme_md(scheme); bool good = false;
    EVP_MD_CTX *m = EVP_MD_CTX_new(); EVP_PKEY_CTX *pc = nullptr;
    if (key && md && m && EVP_DigestVerifyInit(m, &pc, md, nullptr, key) == 1) {
        bool ok = true; int kt = EVP_PKEY_base_id(key);
        if (scheme_is_pss(scheme)) ok = kt == EVP_PKEY_RSA && EVP_PKEY_CTX_set_rsa_padding(pc, RSA_PKCS1_PSS_PADDING) == 1 && EVP_PKEY_CTX_set_rsa_pss_saltlen(pc, RSA_PSS_SALTLEN_DIGEST) == 1 && EVP_PKEY_CTX_set_rsa_mgf1_md(pc, md) == 1;
        else if ((scheme & 0xff) == 0x03) ok = kt == EVP_PKEY_EC;
        else ok = kt == EVP_PKEY_RSA;
        if (ok) good = EVP_DigestVerify(m, sig.data(), sig.size(), content.data(), content.size()) == 1;
    }
    EVP_MD_CTX_free(m); X509_free(x);
    return good;
}

// ------------------------------------------------------------------------------------------------ the puppet
struct TrafficKeys { bool ready = false; Bytes key, iv; uint64_t seq = 0; };

struct Puppet::Impl {
    Config cfg;
    Seen seen;
    Drbg rng;
    Bytes my_random, my_session_id;
    KeyPair kx_x25519, kx_p256, kx_p384, kx_p521;
    Bytes transcript;
    Bytes first_client_hello_hash; bool hrr_done = false; uint16_t hrr_group = 0; Bytes hrr_cookie;
    // secrets
    Bytes ecdhe, early, hs_secret, master, c_hs, s_hs, c_ap, s_ap, res_master;
    TrafficKeys tx[4], rx[3];
    int wr_epoch = EP_PLAIN, rd_epoch = EP_PLAIN;
    bool sent_sh = false, sent_fin = false;
    // receive buffers
    Bytes rxbuf, hsbuf; int hsbuf_epoch = EP_PLAIN;
    // pending (coalesced) output
    Bytes pend; int pend_epoch = EP_PLAIN; uint8_t pend_type = CT_HANDSHAKE;
    uint32_t ticket_ctr = 0;

    explicit Impl(const Config &c) : cfg(c), rng(c.seed, c.server ? "p13-server" : "p13-client") {
        my_random = rng.take(32);
        my_session_id = rng.take(32);
        kx_x25519 = kx_generate(GROUP_X25519, rng.take(32));
        kx_p256 = kx_generate(GROUP_SECP256R1, rng.take(32));
        kx_p384 = kx_generate(GROUP_SECP384R1, Drbg(c.seed, "p13-p384").take(32));   // (separate streams: the values above stay what they were)
        kx_p521 = kx_generate(GROUP_SECP521R1, Drbg(c.seed, "p13-p521").take(32));
        if (cfg.groups.empty()) { cfg.groups.push_back(cfg.group); cfg.groups.push_back(cfg.group == GROUP_X25519 ? GROUP_SECP256R1 : GROUP_X25519); }
    }
    void trace(const char *dir, const std::string &s) const { if (cfg.trace) fprintf(stderr, "  [p13 %s %s] %s\n", cfg.server ? "srv" : "cli", dir, s.c_str()); }
    const KeyPair &kx(uint16_t g) const { return g == GROUP_SECP256R1 ? kx_p256 : g == GROUP_SECP384R1 ? kx_p384 : g == GROUP_SECP521R1 ? kx_p521 : kx_x25519; }
    static void set_keys(TrafficKeys &k, const Bytes &secret) { k.key = hkdf_expand_label(secret, "key", Bytes(), 16); k.iv = hkdf_expand_label(secret, "iv", Bytes(), 12); k.seq = 0; k.ready = true; }

    void derive_hs() {
        early = hkdf_extract(Bytes(), Bytes(32, 0));
        Bytes d1 = derive_secret(early, "derived", sha256(Bytes()));
        hs_secret = hkdf_extract(d1, ecdhe.empty() ? Bytes(32, 0) : ecdhe);
        Bytes th = sha256(transcript);
        c_hs = derive_secret(hs_secret, "c hs traffic", th);
        s_hs = derive_secret(hs_secret, "s hs traffic", th);
        Bytes d2 = derive_secret(hs_secret, "derived", sha256(Bytes()));
        master = hkdf_extract(d2, Bytes(32, 0));
        set_keys(tx[EP_HANDSHAKE], cfg.server ? s_hs : c_hs);
        set_keys(rx[EP_HANDSHAKE], cfg.server ? c_hs : s_hs);
        trace("--", "handshake keys derived over " + std::to_string(transcript.size()) + " transcript bytes, ecdhe=" + (ecdhe.empty() ? "(none)" : hexs(ecdhe, 8)));
    }
    void derive_app() {
        if (master.empty()) derive_hs();
        Bytes th = sha256(transcript);
        c_ap = derive_secret(master, "c ap traffic", th);
        s_ap = derive_secret(master, "s ap traffic", th);
        set_keys(tx[EP_APP], cfg.server ? s_ap : c_ap);
        set_keys(rx[EP_APP], cfg.server ? c_ap : s_ap);
        trace("--", "application keys derived over " + std::to_string(transcript.size()) + " transcript bytes");
    }
    void ensure(int epoch) {
        if (epoch == EP_HANDSHAKE && !tx[EP_HANDSHAKE].ready) derive_hs();
        if (epoch == EP_APP && !tx[EP_APP].ready) derive_app();
        if (epoch == EP_WRONG && !tx[EP_WRONG].ready) { Drbg w(cfg.seed, "p13-wrong-keys"); tx[EP_WRONG].key = w.take(16); tx[EP_WRONG].iv = w.take(12); tx[EP_WRONG].ready = true; }
    }
    static Bytes nonce_for(const TrafficKeys &k) { Bytes n = k.iv; for (int i = 0; i < 8; i++) n[11 - i] ^= (uint8_t) (k.seq >> (8 * i)); return n; }

    Bytes seal(int epoch, uint8_t inner, const Bytes &pt, size_t pad, uint16_t ver) {
        if (epoch == EP_PLAIN) return Puppet::plain_record(inner, pt, ver);
        ensure(epoch);
        TrafficKeys &k = tx[epoch];
        Bytes in = pt; in.push_back(inner); in.insert(in.end(), pad, 0);
        Bytes hdr; put8(hdr, CT_APPDATA); put16(hdr, ver); put16(hdr, (unsigned) (in.size() + 16));
        Bytes ct; gcm_seal(k.key, nonce_for(k), hdr, in, ct); k.seq++;
        Bytes rec = hdr; putb(rec, ct);
        return rec;
    }
    Bytes flush(size_t max_frag, size_t pad, uint16_t ver) {
        Bytes out;
        if (pend.empty()) return out;
        if (max_frag == 0 || max_frag > 16384) max_frag = 16384;
        for (size_t o = 0; o < pend.size(); o += max_frag) {
            Bytes chunk(pend.begin() + o, pend.begin() + std::min(pend.size(), o + max_frag));
            putb(out, seal(pend_epoch, pend_type, chunk, pad, ver));
        }
        pend.clear();
        return out;
    }

    // ---- builders
    Bytes client_hello() const {
        Bytes b; put16(b, 0x0303); putb(b, my_random);
        putv8(b, cfg.compat_session_id ? my_session_id : Bytes());
        Bytes suites; put16(suites, 0x1301); putv16(b, suites);
        put8(b, 1); put8(b, 0);
        Bytes ext;
        if (!cfg.sni.empty()) { Bytes n; put8(n, 0); put16(n, (unsigned) cfg.sni.size()); n.insert(n.end(), cfg.sni.begin(), cfg.sni.end()); Bytes l; putv16(l, n); put_ext(ext, 0, l); }
        { Bytes v; put8(v, 2); put16(v, 0x0304); put_ext(ext, 43, v); }
        { Bytes g; for (auto x : cfg.groups) put16(g, x); Bytes l; putv16(l, g); put_ext(ext, 10, l); }
        { Bytes s; for (unsigned x : { 0x0804u, 0x0403u, 0x0805u, 0x0806u, 0x0503u, 0x0603u, 0x0401u, 0x0501u, 0x0601u }) put16(s, x); Bytes l; putv16(l, s); put_ext(ext, 13, l); }
        { uint16_t g = hrr_done && hrr_group ? hrr_group : cfg.group; Bytes e; put16(e, g); putv16(e, kx(g).pub); Bytes l; putv16(l, e); put_ext(ext, 51, l); }
        { Bytes m; put8(m, 1); put8(m, 1); put_ext(ext, 45, m); }
        if (hrr_done && !hrr_cookie.empty()) { Bytes c; putv16(c, hrr_cookie); put_ext(ext, 44, c); }
        if (!cfg.psk_identity.empty()) {   // pre_shared_key MUST be the last extension (RFC 8446 4.2.11)
            Bytes id; putv16(id, cfg.psk_identity); put32(id, cfg.psk_obfuscated_age);
            Bytes b; putv8(b, cfg.psk_binder.empty() ? Drbg(cfg.seed, "p13-psk-binder").take(32) : cfg.psk_binder);
            Bytes o; putv16(o, id); putv16(o, b); put_ext(ext, 41, o);
        }
        putv16(b, ext);
        return Puppet::hs_msg(HS_CLIENT_HELLO, b);
    }
    uint16_t server_group() const {
        // the preferred group if the client offered a share for it, else any share we can use, else the preferred group
        for (auto &ks : seen.key_shares) if (ks.first == cfg.group) return cfg.group;
        for (auto &ks : seen.key_shares) if (ks.first == GROUP_X25519 || ec_nid(ks.first)) return ks.first;
        return cfg.group;
    }
    Bytes server_hello_body(bool hrr, uint16_t group, uint16_t suite = 0x1301) const {
        static const uint8_t hrr_random[32] = { 0xCF, 0x21, 0xAD, 0x74, 0xE5, 0x9A, 0x61, 0x11, 0xBE, 0x1D, 0x8C, 0x02, 0x1E, 0x65, 0xB8, 0x91,
                                                0xC2, 0xA2, 0x11, 0x16, 0x7A, 0xBB, 0x8C, 0x5E, 0x07, 0x9E, 0x09, 0xE2, 0xC8, 0xA8, 0x33, 0x9C };
        Bytes b; put16(b, 0x0303);
        if (hrr) b.insert(b.end(), hrr_random, hrr_random + 32); else putb(b, my_random);
        putv8(b, seen.session_id);
        put16(b, suite ? suite : 0x1301); put8(b, 0);
        Bytes ext;
        { Bytes v; put16(v, 0x0304); put_ext(ext, 43, v); }
        { Bytes e; put16(e, group); if (!hrr) putv16(e, kx(group).pub); put_ext(ext, 51, e); }
        putv16(b, ext);
        return b;
    }

    // ---- receiving
    void on_handshake(const Bytes &m, int epoch) {
        uint8_t type = m[0];
        Bytes body(m.begin() + 4, m.end());
        seen.hs_types.push_back(type); seen.hs_epochs.push_back(epoch);
        trace("<-", std::string(hs_type_name(type)) + " len=" + std::to_string(body.size()) + " epoch=" + std::to_string(epoch));
        Rd r(body);
        switch (type) {
        case HS_CLIENT_HELLO: {
            bool second = seen.client_hello;
            r.u(2); Bytes rnd = r.take(32); Bytes sid = r.vec(1); Bytes suites = r.vec(2); r.vec(1); Bytes ext = r.vec(2);
            if (!r.ok) { seen.malformed++; break; }
            seen.client_hello = true; seen.peer_random = rnd; seen.session_id = sid;
            seen.offered_suites.clear(); for (size_t i = 0; i + 1 < suites.size(); i += 2) seen.offered_suites.push_back((uint16_t) (suites[i] << 8 | suites[i + 1]));
            seen.key_shares.clear(); seen.offered_groups.clear(); seen.offered_sigalgs.clear(); seen.offered_versions.clear();
            Rd e(ext);
            while (e.left() >= 4) {
                unsigned et = e.u(2); Bytes ed = e.vec(2); if (!e.ok) break;
                Rd x(ed);
                if (et == 51) { Bytes l = x.vec(2); Rd s(l); while (s.left() >= 4) { uint16_t g = (uint16_t) s.u(2); Bytes k = s.vec(2); if (s.ok) seen.key_shares.emplace_back(g, k); } }
                else if (et == 10) { Bytes l = x.vec(2); for (size_t i = 0; i + 1 < l.size(); i += 2) seen.offered_groups.push_back((uint16_t) (l[i] << 8 | l[i + 1])); }
                else if (et == 13) { Bytes l = x.vec(2); for (size_t i = 0; i + 1 < l.size(); i += 2) seen.offered_sigalgs.push_back((uint16_t) (l[i] << 8 | l[i + 1])); }
                else if (et == 43) { Bytes l = x.vec(1); for (size_t i = 0; i + 1 < l.size(); i += 2) seen.offered_versions.push_back((uint16_t) (l[i] << 8 | l[i + 1])); }
            }
            (void) second;
            transcript.insert(transcript.end(), m.begin(), m.end());
            break; }
        case HS_SERVER_HELLO: {
            static const uint8_t hrr_random[4] = { 0xCF, 0x21, 0xAD, 0x74 };
            r.u(2); Bytes rnd = r.take(32); Bytes sid = r.vec(1); uint16_t suite = (uint16_t) r.u(2); r.u(1); Bytes ext = r.vec(2);
            if (!r.ok) { seen.malformed++; transcript.insert(transcript.end(), m.begin(), m.end()); break; }
            bool hrr = memcmp(rnd.data(), hrr_random, 4) == 0 && rnd[31] == 0x9C;
            seen.cipher_suite = suite; seen.session_id = sid;
            uint16_t group = 0; Bytes share, cookie;
            Rd e(ext);
            while (e.left() >= 4) {
                unsigned et = e.u(2); Bytes ed = e.vec(2); if (!e.ok) break;
                Rd x(ed);
                if (et == 51) { group = (uint16_t) x.u(2); if (!hrr) share = x.vec(2); }
                else if (et == 43) seen.selected_version = (uint16_t) x.u(2);
                else if (et == 41) seen.selected_psk = (int) x.u(2);
                else if (et == 44) cookie = x.vec(2);
            }
            seen.selected_group = group;
            if (hrr && !seen.server_hello) {
                seen.hello_retry_request = true; hrr_done = true; hrr_group = group; hrr_cookie = cookie;
                Bytes h = sha256(transcript);
                Bytes t; put8(t, HS_MESSAGE_HASH); put24(t, 32); putb(t, h);
                transcript = t; transcript.insert(transcript.end(), m.begin(), m.end());
                break;
            }
            bool first = !seen.server_hello;
            seen.server_hello = true; seen.peer_random = rnd;
            transcript.insert(transcript.end(), m.begin(), m.end());
            if (first) {
                seen.key_shares.clear(); seen.key_shares.emplace_back(group, share);
                ecdhe = kx_derive(kx(group), share);
                derive_hs();
                rd_epoch = EP_HANDSHAKE; wr_epoch = EP_HANDSHAKE;
            }
            break; }
        case HS_ENCRYPTED_EXTENSIONS: seen.encrypted_extensions = true; transcript.insert(transcript.end(), m.begin(), m.end()); break;
        case HS_CERTIFICATE_REQUEST: {
            seen.certificate_request = true; seen.cert_request_context = r.vec(1);
            transcript.insert(transcript.end(), m.begin(), m.end()); break; }
        case HS_CERTIFICATE: {
            r.vec(1); Bytes list = r.vec(3);
            seen.certificate = true; seen.peer_chain.clear();
            Rd l(list);
            while (l.left() >= 3) { Bytes c = l.vec(3); l.vec(2); if (l.ok) seen.peer_chain.push_back(c); }
            seen.certificate_empty = seen.peer_chain.empty();
            if (!r.ok) seen.malformed++;
            transcript.insert(transcript.end(), m.begin(), m.end()); break; }
        case HS_CERTIFICATE_VERIFY: {
            uint16_t scheme = (uint16_t) r.u(2); Bytes sig = r.vec(2);
            seen.certificate_verify = true; seen.cv_scheme = scheme;
            bool peer_is_server = !cfg.server;
            seen.cv_ok = (r.ok && !seen.peer_chain.empty() && verify_signature(seen.peer_chain[0], scheme, certificate_verify_content(peer_is_server, sha256(transcript)), sig)) ? 1 : 0;
            transcript.insert(transcript.end(), m.begin(), m.end()); break; }
        case HS_FINISHED: {
            bool first = !seen.finished;
            seen.finished = true;
            if (first) {
                if (hs_secret.empty()) derive_hs();
                Bytes fk = hkdf_expand_label(cfg.server ? c_hs : s_hs, "finished", Bytes(), 32);
                seen.finished_ok = (body == hmac_sha256(fk, sha256(transcript))) ? 1 : 0;
            }
            transcript.insert(transcript.end(), m.begin(), m.end());
            if (first) {
                if (!cfg.server) { derive_app(); rd_epoch = EP_APP; }                       // server Finished: application secrets cover CH..server Finished
                else { rd_epoch = EP_APP; if (!master.empty()) res_master = derive_secret(master, "res master", sha256(transcript)); }
            }
            break; }
        case HS_NEW_SESSION_TICKET: seen.tickets.push_back(body); break;
        case HS_KEY_UPDATE: seen.key_updates++; break;
        default: transcript.insert(transcript.end(), m.begin(), m.end()); break;
        }
    }
    void on_content(uint8_t type, const Bytes &data, int epoch, bool encrypted) {
        if (type == CT_HANDSHAKE) {
            if (hsbuf.empty()) hsbuf_epoch = epoch;
            putb(hsbuf, data);
            while (hsbuf.size() >= 4) {
                size_t l = (size_t) hsbuf[1] << 16 | (size_t) hsbuf[2] << 8 | hsbuf[3];
                if (hsbuf.size() < 4 + l) break;
                Bytes m(hsbuf.begin(), hsbuf.begin() + 4 + l);
                hsbuf.erase(hsbuf.begin(), hsbuf.begin() + 4 + l);
                on_handshake(m, epoch);
            }
        } else if (type == CT_ALERT) {
            if (data.size() >= 2) { seen.alerts.push_back(Alert{ data[0], data[1], encrypted, epoch }); trace("<-", "alert level=" + std::to_string(data[0]) + " desc=" + std::to_string(data[1]) + (encrypted ? " (protected)" : " (plaintext)")); }
            else seen.malformed++;
        } else if (type == CT_APPDATA) {
            putb(seen.app_data, data); trace("<-", "application data " + std::to_string(data.size()) + " bytes");
        } else if (type == CT_CCS) { seen.ccs_records++;
        } else seen.malformed++;
    }
    bool try_open(int epoch, const Bytes &hdr, const uint8_t *ct, size_t n) {
        TrafficKeys &k = rx[epoch];
        if (!k.ready) return false;
        Bytes pt;
        if (!gcm_open(k.key, nonce_for(k), hdr, ct, n, pt)) return false;
        k.seq++;
        size_t e = pt.size();
        while (e > 0 && pt[e - 1] == 0) e--;
        if (e == 0) { seen.malformed++; return true; }
        uint8_t inner = pt[e - 1]; pt.resize(e - 1);
        on_content(inner, pt, epoch, true);
        return true;
    }
    void recv(const Bytes &w) {
        putb(rxbuf, w);
        size_t o = 0;
        while (rxbuf.size() - o >= 5) {
            uint8_t type = rxbuf[o]; size_t len = (size_t) rxbuf[o + 3] << 8 | rxbuf[o + 4];
            if (rxbuf.size() - o < 5 + len) break;
            Bytes hdr(rxbuf.begin() + o, rxbuf.begin() + o + 5);
            const uint8_t *body = rxbuf.data() + o + 5;
            if (type == CT_CCS) { seen.ccs_records++; trace("<-", "change_cipher_spec record"); }
            else if (type == CT_APPDATA && (rd_epoch != EP_PLAIN || rx[EP_HANDSHAKE].ready)) {
                // current read epoch first, then the other one (a deviated victim may answer under either)
                int first = rd_epoch == EP_APP ? EP_APP : EP_HANDSHAKE, second = first == EP_APP ? EP_HANDSHAKE : EP_APP;
                if (!try_open(first, hdr, body, len) && !try_open(second, hdr, body, len)) { seen.undecryptable++; trace("<-", "undecryptable record len=" + std::to_string(len)); }
            } else on_content(type, Bytes(body, body + len), EP_PLAIN, false);
            o += 5 + len;
        }
        rxbuf.erase(rxbuf.begin(), rxbuf.begin() + o);
    }
};

Puppet::Puppet(const Config &cfg) : d(new Impl(cfg)) {}
Puppet::~Puppet() {}
const Seen &Puppet::seen() const { return d->seen; }
void Puppet::recv(const Bytes &wire) { d->recv(wire); }
const Bytes &Puppet::transcript() const { return d->transcript; }
Bytes Puppet::transcript_hash() const { return sha256(d->transcript); }
void Puppet::transcript_append(const Bytes &m) { putb(d->transcript, m); }
void Puppet::transcript_set(const Bytes &t) { d->transcript = t; }
bool Puppet::handshake_keys_ready() const { return d->tx[EP_HANDSHAKE].ready; }
bool Puppet::app_keys_ready() const { return d->tx[EP_APP].ready; }
void Puppet::derive_handshake_keys() { d->derive_hs(); }
void Puppet::derive_app_keys() { d->derive_app(); }
int Puppet::write_epoch() const { return d->wr_epoch; }
int Puppet::read_epoch() const { return d->rd_epoch; }
void Puppet::set_write_epoch(int e) { d->wr_epoch = e; }
void Puppet::set_read_epoch(int e) { d->rd_epoch = e; }
uint64_t Puppet::write_seq(int epoch) const { return (epoch >= 1 && epoch <= 3) ? d->tx[epoch].seq : 0; }
void Puppet::set_write_seq(int epoch, uint64_t s) { if (epoch >= 1 && epoch <= 3) d->tx[epoch].seq = s; }
Bytes Puppet::secret(const std::string &n) const {
    if (n == "ecdhe") return d->ecdhe; if (n == "early") return d->early; if (n == "handshake") return d->hs_secret; if (n == "master") return d->master;
    if (n == "c hs") return d->c_hs; if (n == "s hs") return d->s_hs; if (n == "c ap") return d->c_ap; if (n == "s ap") return d->s_ap; if (n == "res master") return d->res_master;
    return Bytes();
}
Bytes Puppet::hs_msg(uint8_t type, const Bytes &body) { Bytes m; put8(m, type); put24(m, body.size()); putb(m, body); return m; }
Bytes Puppet::plain_record(uint8_t type, const Bytes &payload, uint16_t ver) { Bytes r; put8(r, type); put16(r, ver); put16(r, (unsigned) payload.size()); putb(r, payload); return r; }
Bytes Puppet::seal(int epoch, uint8_t inner, const Bytes &pt, size_t pad, uint16_t ver) { if (epoch == EP_AUTO) epoch = d->wr_epoch; return d->seal(epoch, inner, pt, pad, ver); }
Bytes Puppet::flush(size_t max_frag, size_t pad, uint16_t ver) { return d->flush(max_frag, pad, ver); }

Bytes Puppet::make_client_hello() const { return d->client_hello(); }
Bytes Puppet::make_server_hello() const { return hs_msg(HS_SERVER_HELLO, d->server_hello_body(false, d->server_group())); }
Bytes Puppet::make_hello_retry_request(uint16_t group) const { return hs_msg(HS_SERVER_HELLO, d->server_hello_body(true, group)); }
Bytes Puppet::make_encrypted_extensions() const { Bytes b; put16(b, 0); return hs_msg(HS_ENCRYPTED_EXTENSIONS, b); }
Bytes Puppet::make_certificate_request() const {
    Bytes b; put8(b, 0);
    Bytes s; for (unsigned x : { 0x0804u, 0x0403u, 0x0805u, 0x0806u, 0x0503u, 0x0401u, 0x0501u, 0x0601u }) put16(s, x);
    Bytes l; putv16(l, s); Bytes ext; put_ext(ext, 13, l); putv16(b, ext);
    return hs_msg(HS_CERTIFICATE_REQUEST, b);
}
Bytes Puppet::make_certificate(const Identity *id, const Bytes &context, bool empty_list) const {
    Bytes b; putv8(b, context);
    Bytes list;
    if (id && !empty_list) for (auto &c : id->chain) { putv24(list, c); put16(list, 0); }
    putv24(b, list);
    return hs_msg(HS_CERTIFICATE, b);
}
Bytes Puppet::make_certificate_verify(const Identity &id, uint16_t scheme, bool server_context, const Bytes &thash) const {
    if (!scheme) scheme = id.ec ? SIG_ECDSA_SECP256R1_SHA256 : SIG_RSA_PSS_RSAE_SHA256;
    Bytes b; put16(b, scheme); putv16(b, sign_content(id.key, scheme, certificate_verify_content(server_context, thash)));
    return hs_msg(HS_CERTIFICATE_VERIFY, b);
}
Bytes Puppet::make_finished(bool server_side, const Bytes &thash) {
    if (d->hs_secret.empty()) d->derive_hs();
    Bytes fk = hkdf_expand_label(server_side ? d->s_hs : d->c_hs, "finished", Bytes(), 32);
    return hs_msg(HS_FINISHED, hmac_sha256(fk, thash));
}
Bytes Puppet::make_new_session_ticket() {
    Bytes b; put32(b, 7200); put32(b, 0x12345678u + d->ticket_ctr);
    Bytes nonce; put8(nonce, d->ticket_ctr++); putv8(b, nonce);
    Drbg t(d->cfg.seed + d->ticket_ctr, "p13-ticket"); putv16(b, t.take(48));
    put16(b, 0);
    return hs_msg(HS_NEW_SESSION_TICKET, b);
}

Bytes Puppet::emit(const Step &s) {
    Impl &I = *d;
    Bytes out;
    const bool srv = I.cfg.server;
    if (s.msg == M_RAW_RECORDS) { out = I.flush(0, 0, s.rec_version); putb(out, s.payload); I.trace("->", "raw bytes " + std::to_string(s.payload.size())); return out; }
    if (s.msg == M_CCS) {
        out = I.flush(0, 0, s.rec_version);
        Bytes pl = s.payload.empty() ? Bytes(1, 1) : s.payload;
        int ep = s.keys == EP_AUTO ? EP_PLAIN : s.keys;
        putb(out, ep == EP_PLAIN ? plain_record(CT_CCS, pl, s.rec_version) : I.seal(ep, CT_CCS, pl, s.pad, s.rec_version));
        I.trace("->", "CCS payload=" + hexs(pl) + " epoch=" + std::to_string(ep));
        return out;
    }
    int epoch = s.keys; uint8_t ctype = CT_HANDSHAKE; Bytes data;
    if (s.msg == M_APP_DATA) { ctype = CT_APPDATA; data = s.payload; if (epoch == EP_AUTO) epoch = EP_APP; }
    else if (s.msg == M_ALERT) { ctype = CT_ALERT; data = s.payload.empty() ? Bytes{ 2, 10 } : s.payload; if (epoch == EP_AUTO) epoch = I.wr_epoch; }
    else {
        const Identity *id = s.identity ? s.identity.get() : I.cfg.identity.get();
        Bytes th = s.transcript_hash.empty() ? sha256(I.transcript) : s.transcript_hash;
        switch (s.msg) {
        case M_CLIENT_HELLO: data = I.client_hello(); break;
        case M_SERVER_HELLO: data = hs_msg(HS_SERVER_HELLO, I.server_hello_body(false, s.group ? s.group : I.server_group(), s.cipher_suite)); break;
        case M_HELLO_RETRY_REQUEST: data = hs_msg(HS_SERVER_HELLO, I.server_hello_body(true, s.group ? s.group : I.cfg.group, s.cipher_suite)); break;
        case M_ENCRYPTED_EXTENSIONS: data = make_encrypted_extensions(); break;
        case M_CERTIFICATE_REQUEST: data = make_certificate_request(); break;
        case M_CERTIFICATE: data = make_certificate(id, srv ? Bytes() : I.seen.cert_request_context, s.empty_certificate); break;
        case M_CERTIFICATE_VERIFY:
            if (id) data = make_certificate_verify(*id, s.sig_scheme ? s.sig_scheme : I.cfg.sig_scheme, srv, th);
            else { Bytes b; put16(b, SIG_RSA_PSS_RSAE_SHA256); putv16(b, Bytes(256, 0x5a)); data = hs_msg(HS_CERTIFICATE_VERIFY, b); }
            break;
        case M_FINISHED: data = make_finished(srv, th); break;
        case M_NEW_SESSION_TICKET: data = make_new_session_ticket(); break;
        case M_KEY_UPDATE: data = hs_msg(HS_KEY_UPDATE, s.payload.empty() ? Bytes(1, 0) : s.payload); break;
        case M_END_OF_EARLY_DATA: data = hs_msg(HS_END_OF_EARLY_DATA, Bytes()); break;
        case M_HELLO_REQUEST: data = hs_msg(HS_HELLO_REQUEST, Bytes()); break;
        case M_SERVER_KEY_EXCHANGE: { Bytes b; put8(b, 3); put16(b, GROUP_X25519); putv8(b, I.kx_x25519.pub); put16(b, SIG_RSA_PSS_RSAE_SHA256); putv16(b, Bytes(256, 0x42)); data = hs_msg(HS_SERVER_KEY_EXCHANGE, b); break; }
        case M_SERVER_HELLO_DONE: data = hs_msg(HS_SERVER_HELLO_DONE, Bytes()); break;
        case M_CLIENT_KEY_EXCHANGE: { Bytes b; putv8(b, I.kx_x25519.pub); data = hs_msg(HS_CLIENT_KEY_EXCHANGE, b); break; }
        case M_RAW_HANDSHAKE: data = hs_msg(s.raw_type, s.payload); break;
        default: return out;
        }
        // the message as the puppet's own honest state machine would protect it
        if (epoch == EP_AUTO) {
            if (s.msg == M_CLIENT_HELLO || s.msg == M_SERVER_HELLO || s.msg == M_HELLO_RETRY_REQUEST) epoch = EP_PLAIN;
            else if (s.msg == M_NEW_SESSION_TICKET || s.msg == M_KEY_UPDATE) epoch = EP_APP;
            else epoch = I.wr_epoch;
        }
        if ((s.use_body_override || !s.body_override.empty()) && !data.empty()) data = hs_msg(data[0], s.body_override);
        if (s.type_override >= 0) data[0] = (uint8_t) s.type_override;
        if (s.flip_bit >= 0) {
            size_t skip = s.flip_body_only && data.size() > 4 ? 4 : 0;
            size_t bit = (size_t) s.flip_bit % ((data.size() - skip) * 8);
            data[skip + bit / 8] ^= (uint8_t) (1u << (bit % 8));
        }
        uint8_t wire_type = data[0];
        // ServerHello as server: fix the ECDHE secret before the transcript moves on
        if (srv && s.msg == M_SERVER_HELLO && !I.sent_sh) {
            uint16_t g = s.group ? s.group : I.server_group();
            for (auto &ks : I.seen.key_shares) if (ks.first == g) { I.ecdhe = kx_derive(I.kx(g), ks.second); break; }
        }
        bool post_handshake = wire_type == HS_NEW_SESSION_TICKET || wire_type == HS_KEY_UPDATE;
        const size_t tlen_before = I.transcript.size();
        if (s.in_transcript && !post_handshake) {
            if (s.msg == M_HELLO_RETRY_REQUEST) { Bytes h = sha256(I.transcript); Bytes t; put8(t, HS_MESSAGE_HASH); put24(t, 32); putb(t, h); I.transcript = t; }
            putb(I.transcript, data);
        }
        I.trace("->", std::string(msg_name(s.msg)) + " as type " + hs_type_name(wire_type) + " len=" + std::to_string(data.size() - 4) + " epoch=" + std::to_string(epoch) +
                          (s.flip_bit >= 0 ? " FLIPPED" : "") + (s.coalesce ? " (coalesce)" : "") + (s.max_frag ? " frag=" + std::to_string(s.max_frag) : ""));
        if (s.advance) {
            if (wire_type == HS_SERVER_HELLO && srv && s.msg == M_SERVER_HELLO && !I.sent_sh) {
                I.sent_sh = true; I.derive_hs(); I.wr_epoch = EP_HANDSHAKE; I.rd_epoch = EP_HANDSHAKE;
            } else if (wire_type == HS_CLIENT_HELLO && !srv && I.hrr_done) {
                // second ClientHello after a HelloRetryRequest: nothing to do, the transcript already carries message_hash
            } else if (wire_type == HS_FINISHED && !I.sent_fin) {
                I.sent_fin = true;
                if (srv) { I.derive_app(); }                               // CH..server Finished
                else {
                    if (!I.tx[EP_APP].ready) {                              // server Finished never seen: application secrets over what there was before our Finished
                        Bytes keep = I.transcript; if (tlen_before <= keep.size() && s.msg != M_HELLO_RETRY_REQUEST) I.transcript.resize(tlen_before); I.derive_app(); I.transcript = keep;
                    }
                    if (!I.master.empty()) I.res_master = derive_secret(I.master, "res master", sha256(I.transcript));
                }
                I.wr_epoch = EP_APP;
            }
        }
    }
    if (s.inner_type >= 0) ctype = (uint8_t) s.inner_type;
    if (s.msg == M_APP_DATA) I.trace("->", "application data " + std::to_string(data.size()) + " bytes inner type " + std::to_string(ctype) + " epoch=" + std::to_string(epoch));
    if (s.msg == M_ALERT) I.trace("->", "alert " + hexs(data) + " epoch=" + std::to_string(epoch));
    if (!I.pend.empty() && (I.pend_epoch != epoch || I.pend_type != ctype)) putb(out, I.flush(0, 0, s.rec_version));
    I.pend_epoch = epoch; I.pend_type = ctype;
    if (data.empty() && !s.coalesce) { putb(out, I.seal(epoch, ctype, data, s.pad, s.rec_version)); return out; }   // zero-length record
    putb(I.pend, data);
    if (!s.coalesce) putb(out, I.flush(s.max_frag, s.pad, s.rec_version));
    return out;
}
} // namespace p13
