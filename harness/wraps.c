/* Link-time interposers (ld --wrap) that make MatrixSSL deterministic and controllable:
 *   psGetEntropy  -> per-endpoint deterministic streams
 *   psGetTime     -> virtual monotonic clock (ms resolution)
 *   time          -> virtual wall clock (certificate dates, psGetEpochTime)
 * No source change in /repo is needed for any of this. */
#include <stdint.h>
#include <string.h>
#include <time.h>
#include <stdio.h>
#define NEED_PS_TIME_CONCRETE
#include "core/coreApi.h"

#define VFH_STREAMS 16
static uint64_t g_seed = 1;
static uint64_t g_ctr[VFH_STREAMS];
static int g_stream = 0;
static int64_t g_now_ms = 1000000;              /* monotonic virtual clock */
static int64_t g_epoch_base = 1790000000;       /* 2026-09-21T..Z : inside testkeys and /verif/pki validity */
uint64_t vfh_entropy_calls = 0, vfh_entropy_bytes = 0;
int vfh_trace = 0;
/* last bytes handed out (for the nonce/IV ledger of C17) */
void (*vfh_entropy_tap)(const unsigned char *bytes, uint32_t size) = 0;

static uint64_t mix(uint64_t x)
{
    x += 0x9E3779B97F4A7C15ULL;
    x = (x ^ (x >> 30)) * 0xBF58476D1CE4E5B9ULL;
    x = (x ^ (x >> 27)) * 0x94D049BB133111EBULL;
    return x ^ (x >> 31);
}

void vfh_entropy_reset(uint64_t seed)
{
    g_seed = seed;
    memset(g_ctr, 0, sizeof g_ctr);
    g_stream = 0;
}
int vfh_entropy_select(int stream)
{
    int old = g_stream;
    g_stream = ((unsigned) stream) % VFH_STREAMS;
    return old;
}
void vfh_clock_set_ms(int64_t ms) { g_now_ms = ms; }
int64_t vfh_clock_get_ms(void) { return g_now_ms; }
void vfh_clock_advance_ms(int64_t d) { g_now_ms += d; }
void vfh_epoch_set(int64_t base) { g_epoch_base = base; }

int32 __wrap_psGetEntropy(unsigned char *bytes, uint32 size, void *userPtr)
{
    uint32 i = 0;
    (void) userPtr;
    vfh_entropy_calls++;
    vfh_entropy_bytes += size;
    if (vfh_trace)
    {
        fprintf(stderr, "[entropy] stream=%d ctr=%llu size=%u\n", g_stream, (unsigned long long) g_ctr[g_stream], size);
    }
    while (i < size)
    {
        uint64_t v = mix(g_seed * 0x100000001B3ULL + ((uint64_t) g_stream << 56) + g_ctr[g_stream]++);
        uint32 k = size - i < 8 ? size - i : 8;
        memcpy(bytes + i, &v, k);
        i += k;
    }
    if (vfh_entropy_tap)
    {
        vfh_entropy_tap(bytes, size);
    }
    return (int32) size;
}

/* Virtual monotonic clock: psGetTime fills the platform's concrete psTime_t (a struct timespec on this
   build) from the virtual clock, so that the library's own psDiffMsecs / psCompareTime run unchanged on it
   (their 32-bit millisecond arithmetic is part of what the checks exercise). */
extern int32 __real_psDiffMsecs(psTime_t then, psTime_t now, void *userPtr);
extern int32 __real_psCompareTime(psTime_t a, psTime_t b, void *userPtr);
int32 __wrap_psGetTime(psTime_t *t, void *userPtr)
{
    psTime_t lt;
    (void) userPtr;
    if (t == NULL)
    {
        t = &lt;
    }
    memset(t, 0, sizeof *t);
    t->psTimeInternal.tv_sec = (time_t) (g_now_ms / 1000);
    t->psTimeInternal.tv_nsec = (long) (g_now_ms % 1000) * 1000000L;
    return (int32) (g_now_ms / 1000);
}

int32 __wrap_psDiffMsecs(psTime_t then, psTime_t now, void *userPtr)
{
    return __real_psDiffMsecs(then, now, userPtr);
}

int32 __wrap_psCompareTime(psTime_t a, psTime_t b, void *userPtr)
{
    return __real_psCompareTime(a, b, userPtr);
}

time_t __wrap_time(time_t *t)
{
    time_t v = (time_t) (g_epoch_base + (g_now_ms - 1000000) / 1000);
    if (t)
    {
        *t = v;
    }
    return v;
}
