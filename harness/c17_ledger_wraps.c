/* C17 ledger: ld --wrap interposers around the AEAD primitives.  Every seal operation performed by MatrixSSL is
 * recorded as (key, nonce, aad digest, plaintext digest); the property inspects the ledger after each history. */
#include <stdint.h>
#include <string.h>
#include "crypto/cryptoApi.h"

#define LEDGER_MAX 8192
typedef struct { uint64_t key_id; unsigned char nonce[12]; uint64_t aad_h, pt_h; uint32_t pt_len; int alg; unsigned char aad[16]; unsigned char pt0; } vfh_seal_t;
vfh_seal_t vfh_ledger[LEDGER_MAX];
unsigned vfh_ledger_n = 0, vfh_ledger_overflow = 0;

#define CTX_MAX 256
static struct { const void *ctx; uint64_t key_id; unsigned char nonce[12]; uint64_t aad_h; int ready; unsigned char aad[16]; } g_ctx[CTX_MAX];
static unsigned g_ctx_n = 0;
static uint64_t g_keygen = 0;

static uint64_t fnv(const void *p, size_t n, uint64_t h)
{
    const unsigned char *b = (const unsigned char *) p; size_t i;
    for (i = 0; i < n; i++) { h ^= b[i]; h *= 1099511628211ULL; }
    return h;
}
void vfh_ledger_reset(void) { vfh_ledger_n = 0; vfh_ledger_overflow = 0; g_ctx_n = 0; }
static int ctx_slot(const void *ctx, int create)
{
    unsigned i;
    for (i = 0; i < g_ctx_n; i++) if (g_ctx[i].ctx == ctx) return (int) i;
    if (!create) return -1;
    if (g_ctx_n == CTX_MAX) g_ctx_n = 0; /* recycle (contexts of deleted sessions) */
    g_ctx[g_ctx_n].ctx = ctx; g_ctx[g_ctx_n].ready = 0;
    return (int) g_ctx_n++;
}
static void bind_key(const void *ctx, const unsigned char *key, size_t keylen)
{
    int s = ctx_slot(ctx, 1);
    /* key identity = the key bytes themselves (two contexts holding the same key share one nonce space) */
    g_ctx[s].key_id = fnv(key, keylen, 1469598103934665603ULL);
    g_ctx[s].ready = 0;
    g_keygen++;
}
static void add_entry(uint64_t key_id, const unsigned char *nonce, uint64_t aad_h, const unsigned char *pt, uint32_t len, int alg, const unsigned char *aad, size_t aadLen)
{
    vfh_seal_t *e;
    if (vfh_ledger_n == LEDGER_MAX) { vfh_ledger_overflow++; return; }
    e = &vfh_ledger[vfh_ledger_n++];
    e->key_id = key_id; memcpy(e->nonce, nonce, 12); e->aad_h = aad_h; e->pt_h = fnv(pt, len, 14695981039346656037ULL); e->pt_len = len; e->alg = alg; memset(e->aad, 0, 16); if (aad) memcpy(e->aad, aad, aadLen < 16 ? aadLen : 16); e->pt0 = len ? pt[0] : 0;
}

int32_t __real_psAesInitGCM(psAesGcm_t *ctx, const unsigned char key[AES_MAXKEYLEN], uint8_t keylen);
int32_t __wrap_psAesInitGCM(psAesGcm_t *ctx, const unsigned char key[AES_MAXKEYLEN], uint8_t keylen)
{
    bind_key(ctx, key, keylen);
    return __real_psAesInitGCM(ctx, key, keylen);
}
void __real_psAesReadyGCM(psAesGcm_t *ctx, const unsigned char IV[AES_IVLEN], const unsigned char *aad, psSize_t aadLen);
void __wrap_psAesReadyGCM(psAesGcm_t *ctx, const unsigned char IV[AES_IVLEN], const unsigned char *aad, psSize_t aadLen)
{
    int s = ctx_slot(ctx, 1);
    memcpy(g_ctx[s].nonce, IV, 12);
    g_ctx[s].aad_h = fnv(aad ? aad : (const unsigned char *) "", aad ? aadLen : 0, 7);
    memset(g_ctx[s].aad, 0, 16); if (aad) memcpy(g_ctx[s].aad, aad, aadLen < 16 ? aadLen : 16);
    g_ctx[s].ready = 1;
    __real_psAesReadyGCM(ctx, IV, aad, aadLen);
}
/* Used by the TLS 1.3 session-ticket sealing code: draws the IV from the PRNG and readies the context (its call of
   psAesReadyGCM is inside the same object file and therefore not seen by the wrapper above). */
int32_t __real_psAesReadyGCMRandomIV(psAesGcm_t *ctx, unsigned char IV[12], const unsigned char *aad, psSize_t aadLen, void *poolUserPtr);
int32_t __wrap_psAesReadyGCMRandomIV(psAesGcm_t *ctx, unsigned char IV[12], const unsigned char *aad, psSize_t aadLen, void *poolUserPtr)
{
    int32_t rc = __real_psAesReadyGCMRandomIV(ctx, IV, aad, aadLen, poolUserPtr);
    if (rc == PS_SUCCESS)
    {
        int s = ctx_slot(ctx, 1);
        memcpy(g_ctx[s].nonce, IV, 12);
        g_ctx[s].aad_h = fnv(aad ? aad : (const unsigned char *) "", aad ? aadLen : 0, 7);
        memset(g_ctx[s].aad, 0, 16); if (aad) memcpy(g_ctx[s].aad, aad, aadLen < 16 ? aadLen : 16);
        g_ctx[s].ready = 1;
    }
    return rc;
}
void __real_psAesEncryptGCM(psAesGcm_t *ctx, const unsigned char *pt, unsigned char *ct, uint32_t len);
void __wrap_psAesEncryptGCM(psAesGcm_t *ctx, const unsigned char *pt, unsigned char *ct, uint32_t len)
{
    int s = ctx_slot(ctx, 0);
    if (s >= 0) add_entry(g_ctx[s].key_id, g_ctx[s].nonce, g_ctx[s].aad_h, pt, len, g_ctx[s].ready ? 1 : 3 /* 3: encrypt without a fresh Ready */, g_ctx[s].aad, 16);
    if (s >= 0) g_ctx[s].ready = 0;
    __real_psAesEncryptGCM(ctx, pt, ct, len);
}
/* A seal is Ready + [Encrypt] + GetTag.  A tag taken from a context that was readied but never encrypted anything is a seal of
   the empty plaintext under that nonce (the library's decrypt path takes its tag inside psAesDecryptGCM, not through this symbol). */
void __real_psAesGetGCMTag(psAesGcm_t *ctx, uint8_t tagBytes, unsigned char tag[AES_BLOCKLEN]);
void __wrap_psAesGetGCMTag(psAesGcm_t *ctx, uint8_t tagBytes, unsigned char tag[AES_BLOCKLEN])
{
    int s = ctx_slot(ctx, 0);
    if (s >= 0 && g_ctx[s].ready) { add_entry(g_ctx[s].key_id, g_ctx[s].nonce, g_ctx[s].aad_h, (const unsigned char *) "", 0, 1, g_ctx[s].aad, 16); g_ctx[s].ready = 0; }
    __real_psAesGetGCMTag(ctx, tagBytes, tag);
}
int32_t __real_psAesDecryptGCM(psAesGcm_t *ctx, const unsigned char *ct, uint32_t ctLen, unsigned char *pt, uint32_t ptLen);
int32_t __wrap_psAesDecryptGCM(psAesGcm_t *ctx, const unsigned char *ct, uint32_t ctLen, unsigned char *pt, uint32_t ptLen)
{
    int s = ctx_slot(ctx, 0);
    if (s >= 0) g_ctx[s].ready = 0;
    return __real_psAesDecryptGCM(ctx, ct, ctLen, pt, ptLen);
}
psRes_t __real_psChacha20Poly1305IetfInit(psChacha20Poly1305Ietf_t *ctx, const unsigned char *key);
psRes_t __wrap_psChacha20Poly1305IetfInit(psChacha20Poly1305Ietf_t *ctx, const unsigned char *key)
{
    bind_key(ctx, key, 32);
    return __real_psChacha20Poly1305IetfInit(ctx, key);
}
psResSize_t __real_psChacha20Poly1305IetfEncrypt(psChacha20Poly1305Ietf_t *ctx, const unsigned char *pt, psSizeL_t ptLen, const unsigned char *iv, const unsigned char *aad, psSizeL_t aadLen, unsigned char *ct);
psResSize_t __wrap_psChacha20Poly1305IetfEncrypt(psChacha20Poly1305Ietf_t *ctx, const unsigned char *pt, psSizeL_t ptLen, const unsigned char *iv, const unsigned char *aad, psSizeL_t aadLen, unsigned char *ct)
{
    int s = ctx_slot(ctx, 0);
    if (s >= 0) add_entry(g_ctx[s].key_id, iv, fnv(aad ? aad : (const unsigned char *) "", aad ? aadLen : 0, 7), pt, (uint32_t) ptLen, 2, aad, aadLen);
    return __real_psChacha20Poly1305IetfEncrypt(ctx, pt, ptLen, iv, aad, aadLen, ct);
}
